#!/usr/bin/env python3
"""tools/mut.py <relpath> <old> <new> <ID> [<ID>...]
Mutation check in a SCRATCH copy (never touches /repo): /tmp/mut/repo is an rsync of /repo's
working tree, /tmp/mut/harness an rsync of /verif/harness with its path deps pointed at the copy.
Applies an exact unique string replacement, runs the quick checks, reverts the copy.
Several edits: separate triples with '+++':  f1 old1 new1 +++ f2 old2 new2 -- ID ID
Patch file instead of edits:  --patch file.diff -- ID ID"""
import subprocess, sys, os, shutil
args = sys.argv[1:]
patch = None
reverse = ''
if args and args[0] in ('--patch', '--patch-reverse'):
    reverse = '-R ' if args[0] == '--patch-reverse' else ''
    patch = os.path.abspath(args[1]); args = args[2:]
if '--' in args:
    i = args.index('--'); edits_raw, ids = args[:i], args[i+1:]
else:
    edits_raw, ids = args[:3], args[3:]
edits, cur = [], []
for a in edits_raw:
    if a == '+++':
        edits.append(cur); cur = []
    else:
        cur.append(a)
if cur: edits.append(cur)
M = os.environ.get('MUT_DIR', '/tmp/mut')   # scratch directory (set MUT_DIR to run several evaluations side by side)
R, H, ROOT = M + '/repo', M + '/harness', M + '/root'
os.makedirs(M, exist_ok=True)
def sh(c): return subprocess.run(c, shell=True, capture_output=True, text=True)
# -c without -t: files whose content changed get a NEW mtime, so cargo rebuilds them
# (preserving mtimes would let a stale, previously mutated object survive)
sh(f'rsync -rlpgoD -c --delete --exclude target --exclude .git /repo/ {R}/')
sh(f'rsync -rlpgoD -c --delete --exclude target /verif/harness/ {H}/')
sh(f"sed -i 's#/repo/crates#{R}/crates#' {H}/Cargo.toml")
shutil.rmtree(ROOT, ignore_errors=True); os.makedirs(ROOT)
sh(f'cp /verif/known_findings.json {ROOT}/; cp -r /verif/replays {ROOT}/replays; rm -rf {ROOT}/replays/*/found')
if patch:
    r = sh(f'cd {R} && patch {reverse}-p1 < {patch}')
    if r.returncode != 0:
        print('patch failed', r.stdout, r.stderr); sys.exit(2)
for f, old, new in edits:
    p = os.path.join(R, f)
    s = open(p).read()
    if s.count(old) != 1:
        print(f'edit of {f}: old string occurs {s.count(old)} times'); sys.exit(2)
    open(p, 'w').write(s.replace(old, new))
b = sh(f'cd {H} && CARGO_NET_OFFLINE=true cargo build --release --offline 2>&1 | tail -30')
if not os.path.exists(f'{H}/target/release/tvh') or 'error' in b.stdout:
    print('BUILD FAILED (mutant does not compile?)'); print(b.stdout[-3000:]); sys.exit(2)
env = dict(os.environ, VERIF_ROOT=ROOT)
for ID in ids:
    r = subprocess.run(['timeout','1500',f'{H}/target/release/tvh','check',ID, env.get('VERIF_TIER','quick')], capture_output=True, text=True, env=env)
    shown = 0
    for l in r.stdout.splitlines():
        if l.startswith(('VIOLATION','  detail')):
            shown += 1
            if shown <= 4: print(l[:500])
        elif l.startswith(('KNOWN-FINDING','SUMMARY','INFRA','WATCHDOG','NOTE')):
            print(l[:300])
    print(f'[mutant] {ID} rc={r.returncode}')

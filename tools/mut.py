#!/usr/bin/env python3
"""tools/mut.py <relpath> <old> <new> <ID> [<ID>...]
Apply an exact unique string replacement to /repo/<relpath>, run quick checks, ALWAYS revert.
Several edits: separate triples with '+++':  f1 old1 new1 +++ f2 old2 new2 -- ID ID"""
import subprocess, sys, os
args = sys.argv[1:]
if '--' in args:
    i = args.index('--'); edits_raw, ids = args[:i], args[i+1:]
else:
    edits_raw, ids = args[:3], args[3:]
edits = []
cur = []
for a in edits_raw:
    if a == '+++':
        edits.append(cur); cur = []
    else:
        cur.append(a)
edits.append(cur)
if subprocess.run(['git','-C','/repo','diff','--quiet']).returncode != 0:
    print('refusing: /repo dirty'); sys.exit(2)
try:
    for f, old, new in edits:
        p = os.path.join('/repo', f)
        s = open(p).read()
        if s.count(old) != 1:
            print(f'edit of {f}: old string occurs {s.count(old)} times'); sys.exit(2)
        open(p, 'w').write(s.replace(old, new))
    env = dict(os.environ)
    for ID in ids:
        r = subprocess.run(['/verif/check.sh', ID, env.get('VERIF_TIER','quick')], capture_output=True, text=True, env=env)
        for l in r.stdout.splitlines():
            if l.startswith(('VIOLATION','KNOWN-FINDING','SUMMARY','INFRA','WATCHDOG','  detail','NOTE')) or 'error' in l:
                print(l[:700])
        print(f'[mutant] {ID} rc={r.returncode}')
finally:
    subprocess.run(['git','-C','/repo','checkout','--','.'])
    subprocess.run('rm -rf /verif/replays/*/found', shell=True)
    print('[mutant] reverted /repo')

#!/usr/bin/env python3
"""tools/benign_recheck.py <NAME>... | all     (NAME = directory under /verif/benign, e.g. C02-A)
Re-runs the quick checks (all 20) against the property-preserving change in a scratch copy
(tools/mut.py; MUT_DIR from the environment, default /tmp/mutb) and records the alarms in the
change's meta.json (`alarms_now`); the first evaluation stays in `alarms`.  Exit 1 if a check alarms
that is not listed as a CORRECT alarm in the change's `judgement`."""
import sys, os, re, json, subprocess
names = sys.argv[1:]
if names == ['all']:
    names = sorted(d for d in os.listdir('/verif/benign') if os.path.isdir('/verif/benign/' + d))
ids = os.environ.get('BENIGN_IDS', '').split() or ['C%02d' % i for i in range(1, 21)]   # BENIGN_IDS="C15 C20" restricts the checks (results then go to alarms_now_partial)
env = dict(os.environ, MUT_DIR=os.environ.get('MUT_DIR', '/tmp/mutb'))
bad = 0
for n in names:
    d = '/verif/benign/' + n
    meta = json.load(open(d + '/meta.json'))
    r = subprocess.run(['/verif/tools/mut.py', '--patch', d + '/patch.diff', '--'] + ids, capture_output=True, text=True, env=env)
    alarms = {}
    for i in ids:
        if f'[mutant] {i} rc=0' not in r.stdout:
            m = re.search(rf'\[mutant\] {i} rc=(\d+)', r.stdout)
            alarms[i] = int(m.group(1)) if m else 'not run'
    sigs = sorted(set(re.findall(r'VIOLATION property=(C\d+)[^\n]*signature="([^"]+)"', r.stdout)))
    key = 'alarms_now' if len(ids) == 20 else 'alarms_now_partial'
    meta[key] = alarms
    meta[key.replace('alarms', 'alarm_signatures')] = [list(s) for s in sigs]
    json.dump(meta, open(d + '/meta.json', 'w'), indent=1)
    correct = {k for k, v in (meta.get('judgement') or {}).items() if str(v).startswith('CORRECT')}
    unexpected = {k: v for k, v in alarms.items() if k not in correct}
    bad += bool(unexpected)
    print(f'[{n}] alarms_now={alarms} unexpected={unexpected} {sigs[:3]}', flush=True)
sys.exit(1 if bad else 0)

#!/usr/bin/env python3
"""tools/seed_recheck.py <NAME>...   (NAME = directory under /verif/seeded, e.g. C02-B2; `all` = every one)
Re-runs the /verif quick check of the seed's property against the seeded change (scratch copy of
tools/mut.py, never /repo) and records the result in the seed's meta.json (previous result kept
under `history`)."""
import sys, os, re, json, subprocess
names = sys.argv[1:]
if names == ['all']:
    names = sorted(d for d in os.listdir('/verif/seeded') if os.path.isdir('/verif/seeded/' + d))
bad = 0
for n in names:
    d = '/verif/seeded/' + n
    pid = n.split('-')[0]
    mp = d + '/meta.json'
    meta = json.load(open(mp))
    r = subprocess.run(['/verif/tools/mut.py', '--patch', d + '/patch.diff', '--', pid], capture_output=True, text=True)
    det = f'[mutant] {pid} rc=1' in r.stdout
    sigs = sorted(set(re.findall(r'signature="([^"]+)"', r.stdout)))
    summ = re.findall(r'SUMMARY[^\n]*', r.stdout)
    if 'detected_by_check' in meta and (meta.get('detected_by_check') != det or meta.get('signatures') != sigs):
        if not isinstance(meta.get('history'), list):
            meta['history'] = [meta['history']] if meta.get('history') else []
        meta['history'].append({'detected_by_check': meta.get('detected_by_check'), 'signatures': meta.get('signatures')})
    meta['detected_by_check'] = det
    meta['signatures'] = sigs
    json.dump(meta, open(mp, 'w'), indent=1)
    print(f'[{n}] detected={det} signatures={sigs[:3]} {summ[-1][:120] if summ else r.stdout[-300:]}', flush=True)
    bad += (not det)
sys.exit(1 if bad else 0)

#!/usr/bin/env python3
"""tools/seed_eval.py <worktree> <ID> <A|B> [--skip-suite]
Confirms a seeded change in its scratch worktree (demo passes without / fails with the change;
existing suite passes with the change), then runs the /verif check for <ID> against it in the
scratch copy used by tools/mut.py, and stores everything under /verif/seeded/<ID>-<A|B>/."""
import sys, os, re, json, subprocess, shutil
wt, pid, var = sys.argv[1], sys.argv[2], sys.argv[3]
skip_suite = '--skip-suite' in sys.argv
src = os.path.join(wt, 'seed', var)
patch, demo = os.path.join(src, 'patch.diff'), os.path.join(src, 'demo.rs')
meta = json.load(open(os.path.join(src, 'meta.json')))
head = open(demo).read(1500)
m = re.search(r'(crates/[\w\-/]+/tests/[\w\-]+\.rs)', head)
c = re.search(r'(cargo test[^\n`]*)', head)
if not m or not c:
    print('cannot find demo location/command in', demo); print(head[:400]); sys.exit(2)
dest, cmd = os.path.join(wt, m.group(1)), c.group(1).strip().rstrip('.').replace('`','')
if '--offline' not in cmd: cmd += ' --offline'
def sh(c, cwd=wt, t=3000):
    return subprocess.run(c, shell=True, cwd=cwd, capture_output=True, text=True, timeout=t)
sh('git checkout -- . && git clean -fdq crates')
shutil.copy(demo, dest)
r0 = sh(cmd)
ok_without = r0.returncode == 0
r = sh(f'git apply {patch}')
if r.returncode != 0:
    print('patch does not apply', r.stderr); sys.exit(2)
r1 = sh(cmd)
fails_with = r1.returncode != 0
os.remove(dest)
suite_ok = None
if not skip_suite:
    r2 = sh('cargo test --workspace --no-fail-fast --offline 2>&1 | grep -E "^test result|FAILED|failed to" ')
    suite_ok = 'FAILED' not in r2.stdout and 'failed' not in r2.stdout.replace('0 failed','')
sh('git checkout -- . && git clean -fdq crates')
print(f'[{pid}-{var}] demo passes without change: {ok_without}; demo fails with change: {fails_with}; suite passes with change: {suite_ok}')
if not (ok_without and fails_with and suite_ok in (True, None)):
    print(r0.stdout[-600:], r1.stdout[-600:]); print('NOT CONFIRMED'); sys.exit(1)
# detection by the /verif check
d = subprocess.run(['/verif/tools/mut.py', '--patch', patch, '--', pid], capture_output=True, text=True)
print(d.stdout[-1500:])
det = f'[mutant] {pid} rc=1' in d.stdout
sigs = sorted(set(re.findall(r'signature="([^"]+)"', d.stdout)))
sfx = os.environ.get('SEED_SUFFIX', '')
out = f'/verif/seeded/{pid}-{var}{sfx}'
os.makedirs(out, exist_ok=True)
shutil.copy(patch, out + '/patch.diff'); shutil.copy(demo, out + '/demo.rs')
meta.update({'confirmed_by_me': {'demo_passes_without_change': ok_without, 'demo_fails_with_change': fails_with,
             'existing_suite_passes_with_change': suite_ok, 'demo_location': m.group(1), 'demo_command': cmd},
             'check_run': f'tools/mut.py --patch seeded/{pid}-{var}{os.environ.get("SEED_SUFFIX","")}/patch.diff -- {pid}  (quick tier, VERIF_SEED=0)',
             'detected_by_check': det, 'signatures': sigs})
json.dump(meta, open(out + '/meta.json', 'w'), indent=1)
print(f'[{pid}-{var}] detected={det} signatures={sigs}')

#!/usr/bin/env python3
"""Regenerates /verif/MANIFEST.json from the table below (single source of truth)."""
import json, os
ROOT = os.path.dirname(os.path.dirname(os.path.abspath(__file__)))

# id -> (level, technique, level text, level note, design ref)
CLAIMED = {
 "C05": ("exploration",
         "property-based testing (proptest, 16 seeded workers) of generated tick/host/timer/crash scenarios against arithmetic clock identities checked after every step",
         "No counterexample among the generated scenarios: after every Sim::step the harness checks Sim::elapsed == tick*steps and every clock reading taken inside host code against the offset/epoch identities, per-host monotonicity, the window of the step in progress and exact firing of whole-millisecond tokio timers, with crash/bounce and late registration interleaved. Generated search cannot prove absence; the evidence reports how many scenarios and timer observations were checked.",
         "Trusts tokio's paused clock; ticks that are not whole milliseconds are generated as a separate class whose window/timer clauses are excluded because of known finding F-C05-1 (listed in known_findings.json).",
         "DESIGN.md §6 C05"),
 "C11": ("exploration",
         "property-based testing (proptest) of generated client/host outcome mixes against a model that enumerates the admissible result set of Sim::run / step loops",
         "No counterexample among generated mixes of clients and hosts finishing Ok/Err/never/panicking (main future or spawned task) at generated virtual times over 1-3 register-then-run phases, with run() and step() loops, crashes and random order: the observed result (Ok / which software error / duration error / panic) and Sim::elapsed always lay in the admissible set computed by an independent model, and background tasks of finished or crashed software never advanced again.",
         "Boundary finishes and same-step failures are admitted in either order, as the property text allows; the step at which a panic surfaced is not observable; scenarios stop at the first error.",
         "DESIGN.md §6 C11"),
}

PENDING_REASON = "check not built yet in this round (planned, see DESIGN.md §6); not claimed until its check exists and has been shown silent on the unchanged tree"

def main():
    props = [json.loads(l) for l in open(os.path.join(ROOT, "properties.jsonl"))]
    checks, na = [], []
    for p in props:
        pid = p["id"]
        if pid in CLAIMED:
            level, tech, text, note, ref = CLAIMED[pid]
            checks.append({
                "property_id": pid,
                "quick_cmd": f"./check.sh {pid} quick",
                "thorough_cmd": f"./check.sh {pid} thorough",
                "evidence_file": f"/verif/evidence/{pid}.json",
                "replay_cmd_template": "./harness/target/release/tvh replay {path}",
                "engine": "tvh",
                "level_claimed": {"category": level, "text": text, "design_ref": ref},
                "level_note": note,
                "technique": tech,
            })
        else:
            na.append({"property_id": pid, "reason": NA.get(pid, PENDING_REASON)})
    hooks_commits = []
    hc = os.path.join(ROOT, "hooks_commits.txt")
    if os.path.exists(hc):
        hooks_commits = [l.split()[0] for l in open(hc) if l.strip() and not l.startswith("#")]
    m = {
        "version": 1,
        "setup_cmd": "cd /verif/harness && mkdir -p target && CARGO_NET_OFFLINE=true cargo build --release --offline",
        "hooks": {
            "guard": "--cfg turmoil_verif",
            "enable": "RUSTFLAGS via /verif/harness/.cargo/config.toml: [\"--cfg\",\"tokio_unstable\",\"--cfg\",\"turmoil_verif\"]; the harness crate has path dependencies on /repo/crates/*, so every check rebuilds /repo's working tree with the hooks on",
            "baseline_off_cmd": "cd /repo && cargo test --workspace --no-fail-fast --offline",
            "source_commits": hooks_commits,
            "add_only": True,
        },
        "engines": [{
            "name": "tvh",
            "path": "/verif/harness",
            "serves_properties": [c["property_id"] for c in checks],
            "kind_free_text": "Rust binary: proptest TestRunner on 16 fixed seeded workers + bounded-exhaustive enumerators + committed replay corpus, with four drivers (Sim stepping, direct Fs/io_uring, turmoil-net wire, manual polling) and per-property reference models; writes evidence itself",
        }],
        "checks": checks,
        "notes": "All commands run ./check.sh <ID> <tier>: offline cargo build of /verif/harness (path deps on /repo) then tvh check. Exit 0 held / 1 VIOLATION / 2 inconclusive (build failure, watchdog). VERIF_SEED selects the PRNG streams. Known findings: /verif/known_findings.json.",
        "not_applicable": na,
    }
    json.dump(m, open(os.path.join(ROOT, "MANIFEST.json"), "w"), indent=1)
    print("claimed:", [c["property_id"] for c in checks])

NA = {}
if __name__ == "__main__":
    main()

#!/usr/bin/env python3
"""Regenerates /verif/MANIFEST.json from the table below (single source of truth)."""
import json, os
ROOT = os.path.dirname(os.path.dirname(os.path.abspath(__file__)))

# id -> (level, technique, level text, level note, design ref)
CLAIMED = {
 "C05": ("exploration",
         "property-based testing (proptest, 16 seeded workers) of generated tick/host/timer/crash scenarios against arithmetic clock identities checked after every step",
         "No counterexample among the generated scenarios: after every Sim::step the harness checks Sim::elapsed == tick*steps and every clock reading taken inside host code against the offset/epoch identities, per-host monotonicity, the window of the step in progress and exact firing of whole-millisecond tokio timers, with crash/bounce and late registration interleaved. Generated search cannot prove absence; the evidence reports how many scenarios and timer observations were checked.",
         "Trusts tokio's paused clock; ticks that are not whole milliseconds are generated as a separate class whose window/timer clauses are excluded because of known finding F-C05-1 (listed in known_findings.json).",
         "DESIGN.md §6 C05 (plan) and §10.5 (what four rounds of independently seeded changes added to the generated domain)"),
 "C11": ("exploration",
         "property-based testing (proptest) of generated client/host outcome mixes against a model that enumerates the admissible result set of Sim::run / step loops",
         "No counterexample among generated mixes of clients and hosts finishing Ok/Err/never/panicking (main future or spawned task) at generated virtual times over 1-3 register-then-run phases, with run() and step() loops, crashes and random order: the observed result (Ok / which software error / duration error / panic) and Sim::elapsed always lay in the admissible set computed by an independent model, and background tasks of finished or crashed software never advanced again.",
         "Boundary finishes and same-step failures are admitted in either order, as the property text allows; the step at which a panic surfaced is not observable; scenarios stop at the first error.",
         "DESIGN.md §6 C11 (plan) and §10.5 (what four rounds of independently seeded changes added to the generated domain)"),
 "C14": ("exploration",
         "property-based testing (proptest) of generated latency configurations, overrides and traffic against the arithmetic window min-tick <= receipt-send <= max+tick and a send-order oracle for fixed latencies",
         "No counterexample among generated scenarios (tick, global min/max/lambda, per-link fixed and max overrides applied before and during the run by name/IP/regex, UDP and TCP flows with bursts at sub-tick instants, random host order, v4/v6): every message was received exactly once inside the window implied by the setting in force at its send, and UDP messages sent under one fixed latency arrived in send order.",
         "Receivers block in recv and record their own sim_elapsed; precondition max >= min is respected by the generator; global-maximum changes after a link override are not generated.",
         "DESIGN.md §6 C14 (plan) and §10.5 (what four rounds of independently seeded changes added to the generated domain)"),
 "C03": ("fault_enumeration",
         "bounded-exhaustive enumeration of all partition/repair call sequences of length <= 3 plus property-based random sequences, checked against a link-state model driven by the controller's own calls over an execution-ordered event log",
         "Every sequence of length <= 3 over {partition, partition_oneway, repair, repair_oneway} x {(A,B),(B,A)} was executed at several placements, latencies and fail/repair rates, and random longer sequences (from the Sim handle and from host code, by name/IP/regex, 2-4 hosts, UDP + TCP + connect probes): no message sent while its direction was explicitly cut, or in flight (per Sim::links) when the cut was imposed, was ever received, under every fail/repair rate; with fail_rate = 0 every other message was received exactly once and connects on clear directions succeeded.",
         "In-flight sets are read from Sim::links immediately before Sim-side calls and computed from the fixed latency for host-side calls; ambiguous messages under ranged latency + host-side calls are neither required nor forbidden; hold/release excluded as documented.",
         "DESIGN.md §6 C03 (plan) and §10.5 (what four rounds of independently seeded changes added to the generated domain)"),
 "C08": ("fault_enumeration",
         "bounded-exhaustive manual delivery of every subset x permutation of <= 4 held messages plus property-based random hold/release schedules, checked against a held-set model over an execution-ordered event log and an exact model of the links iterator",
         "For every traffic shape with <= 4 held messages every subset and permutation was delivered by hand through Sim::links, and random hold/release schedules (Sim-side and host-side calls by name/IP/regex, repeated cycles, UDP + TCP + connect probes, 2-4 hosts) were run: no held message (sent while held or listed by Sim::links at the hold) was received while held, each was received exactly once within 2 steps of its release or manual delivery and in send order per direction, links not held kept delivering, connects blocked across the hold and completed after it, and with a fixed latency the iterator listed exactly the model's in-flight set after every step.",
         "fail_rate 0; partitions not combined with holds; for host-side holds under ranged latency ambiguous messages are neither required nor forbidden; messages released by a host-side call may or may not still be listed at the end of that step.",
         "DESIGN.md §6 C08 (plan) and §10.5 (what four rounds of independently seeded changes added to the generated domain)"),
 "C02": ("exploration",
         "bounded-exhaustive enumeration of every delivery order of k data segments + FIN through Sim::links plus property-based random connections, checked against a byte-FIFO model per direction",
         "Every delivery order of up to k+1 held messages was executed for several capacities, reader plans and close modes, and random connections (ranged latencies that reorder segments, capacities from 1, three endpoint modes incl. peek, split and try_write, both directions, slow/late readers, hold/release, partitions, abortive closes, remote/same-host/loopback, v4/v6): every read and peek returned exactly the next bytes of the peer's accepted stream, EOF came only after the writer closed and all bytes were consumed, and on a healthy link with a graceful close all bytes and EOF arrived within a configuration-derived step budget.",
         "Bounded liveness (budget >= 10x the worst generated schedule); under partitions/abortive closes only the prefix half is asserted.",
         "DESIGN.md §6 C02 (plan) and §10.5 (what four rounds of independently seeded changes added to the generated domain)"),
 "C15": ("exploration",
         "property-based testing (proptest) of bind/connect/accept/drop/crash sequences on a host with a 3-8 port ephemeral range against a port-set model, and of register/lookup/reverse/regex sequences over up to 600 names against a name->address map",
         "No counterexample among generated operation sequences: every ephemeral port handed out (bind :0 for UDP and TCP listeners, outgoing connect) lay in the configured range and was not in use by a UDP socket, TCP listener or live stream of that host; explicit binds failed with AddrInUse exactly when the same protocol held the port; ports were reusable after drop, failed/cancelled connects and crash+bounce (the allocator never reported exhaustion while the model had a free port); names resolved to distinct, stable addresses inside the documented subnet with reverse lookup inverting the map and regex lookups selecting exactly the matching names, in v4 and v6 mode.",
         "Port-0 requests are only issued while the model has a free port (exhaustion is a documented panic); double registration of a name (documented panic) is not generated.",
         "DESIGN.md §6 C15 (plan) and §10.5 (what four rounds of independently seeded changes added to the generated domain)"),
 "C12": ("exploration",
         "property-based testing (proptest) of generated server timelines and concurrent connectors against a nonce/address bijection oracle and, for fixed latency, an exact step-level model of the listener",
         "No counterexample among generated scenarios (bind / start accepting / listener drop / re-bind timelines; 1-7 connectors on the listener's own host via its address and 127.0.0.1 and on two remote hosts; give-ups; dead ports; unowned addresses; wildcard and localhost binds; v4/v6; fixed and ranged latency; holds and partitions around the handshake; random host order): every successful connect was matched by exactly one accepted stream with mirrored addresses, accepted streams without a connector occurred only for connectors that gave up, connects without a reachable listener failed with ConnectionRefused promptly, no connect stayed pending, accept order followed arrival order, and after all streams were dropped no host counted an established stream.",
         "Events in the very step of a bind/drop/re-bind or within 2 steps of a give-up are admitted either way; accept order asserted only for remote SYNs delivered >= 2 steps apart under fixed latency; pending requests stay far below tcp_capacity.",
         "DESIGN.md §6 C12 (plan) and §10.5 (what four rounds of independently seeded changes added to the generated domain)"),
 "C20": ("exploration",
         "property-based testing (proptest) with a hand-polled manual scheduler: generated interleavings of trigger tasks and test actions against a registry-list model, plus a Sim sub-check of the filesystem corruption hook",
         "No counterexample among generated interleavings of 1-4 hand-polled trigger tasks with barrier creation, wait, handle drop, barrier drop and task cancellation over all three reactions and overlapping value-set conditions: every matching trigger went to the earliest-created live matching barrier and only to it, wait() reported exactly the model queue in order, Suspend held the task until the handle was dropped and released it on its next poll, Noop never blocked, Panic panicked the triggering code, unmatched triggers returned at once and were reported nowhere; corruption events of shim reads inside a Sim reached Barrier<FsCorruption> exactly once each.",
         "Panic messages are those pinned by the crate's tests; a Suspend trigger whose barrier is dropped before wait() reported it is outside the property; io_uring ring reads do not fire the hook and are outside the property.",
         "DESIGN.md §6 C20 (plan) and §10.5 (what four rounds of independently seeded changes added to the generated domain)"),
 "C09": ("exploration",
         "property-based testing (proptest) of generated socket/send/membership scripts against a routing model that derives a No/May/Must relation for every (send, socket) pair",
         "No counterexample (other than the listed known finding) among generated scripts over 2-4 hosts in v4 and v6: every datagram received by a socket belonged to a send whose target set contains that socket (host + bound port for unicast with wildcard vs localhost binds and the connected-peer filter; hosts with the port bound for broadcast and only with the option enabled; members at send time for multicast), carried the sender's payload unaltered and cut only to the receive buffer, reported the expected source address, and was the first receipt of that send on that socket; on healthy links and within the receive capacity every targeted socket received exactly one copy, through recv_from, try_recv_from and readable paths.",
         "fail_rate 0; exactly-one only asserted for sockets alive during the whole delivery window with stable connect state and never addressed by more datagrams than udp_capacity; unspecified corners (own-host multicast loop, loopback-bound sockets sending off-host) are May; known finding F-C09-1 (multicast datagram in flight reaches a later socket on the member's port) is excluded in the main search and asserted by its replay.",
         "DESIGN.md §6 C09 (plan) and §10.5 (what four rounds of independently seeded changes added to the generated domain)"),
 "C04": ("fault_enumeration",
         "fault enumeration: Sim::crash injected after every step of 12 (24 thorough) small workloads x several downtimes, plus property-based random workloads and crash/bounce schedules, checked with task drop-guards, the H1 socket-table hook, the trace, peer-side observation tables and a crash-free twin run",
         "For every workload a crash was injected after every step of the run and followed by a bounce after each listed downtime (plus bounce-without-crash, repeated cycles, two victims selected by regex, and random schedules): when Sim::crash returned no task of the victim was alive and its UDP, TCP listener, TCP stream and multicast tables were empty; while down its code made no progress and it sent nothing; peers blocked on established streams or with a connection request queued at the victim were unblocked with EOF / ConnectionReset / ConnectionRefused within latency + 3 steps; connects and datagrams arriving during the downtime never reached the new incarnation; each bounce ran the software factory exactly once and the new incarnation re-bound its fixed ports and accepted again; hosts not talking to the victim behaved exactly as in a crash-free twin run.",
         "Fixed latency >= 1 ms, fail_rate 0 and fixed host order (needed for the twin comparison); victims' main futures never return; events arriving in the very first step of a new incarnation are not asserted; known finding F-C04-2 (peer writer parked on flow control when only a FIN is sent) is excluded in the main search and asserted by its replay.",
         "DESIGN.md §6 C04 (plan) and §10.5 (what four rounds of independently seeded changes added to the generated domain)"),
 "C06": ("exploration",
         "bounded-exhaustive enumeration of per-packet fate vectors (deliver / hold 2 rounds / drop) over the first n emitted packets of small transfers, property-based random fate walks on a harness-owned wire (NetWire driver), and end-to-end runs through fixture::ClientServer / fixture::lo with table-driven rules; byte-FIFO oracle per direction",
         "Every fate vector over the first 8 (11 thorough) packets of 9 small programs was executed against the real stack, plus random walks over kernel configurations (MTU/MSS, buffer caps down to 1 byte, retransmit parameters), write/read size plans, half-close, reader pauses and per-packet drop/delay/reorder plans, also inside the built-in fixtures: bytes read were always a prefix of the bytes written with EOF only after everything written; within the retransmit budget no operation failed, every byte and EOF arrived for every reader buffer size and no task stayed parked (a stall is re-run with a 10x bound before it is reported); beyond the budget failures surfaced as connection errors, never as silent loss.",
         "One egress_all is one retransmit tick; the budget actually used is tighter than the property's literal bound; loopback has no packet log; known findings F-C06-1..5 are tolerated in the main search only while listed as known and are asserted by their committed replays.",
         "DESIGN.md §6 C06 (plan) and §10.5 (what four rounds of independently seeded changes added to the generated domain)"),
 "C16": ("exploration",
         "property-based testing (proptest) on the NetWire driver with per-round monitors on the wire (packet log) and on netstat snapshots",
         "No counterexample among generated configurations (mtu near the header size, loopback_mtu, asymmetric and sub-MSS caps, v4/v6) and traffic with delayed ACKs, reordering and bounded loss: every TCP segment's payload stayed within the MSS of the interface it left from, Send-Q and Recv-Q never exceeded send_buf_cap / recv_buf_cap on either host, bytes in flight never exceeded the window last delivered to the sender, try_write returned WouldBlock exactly at the cap and succeeded again after ACKs, and UDP payloads above the MTU limit were rejected without emitting a packet while payloads within it arrived intact.",
         "MSS and window clauses are not observable on the loopback path (segments never leave the kernel); a FIN is not counted as a byte in flight; liveness is left to C06.",
         "DESIGN.md §6 C16 (plan) and §10.5 (what four rounds of independently seeded changes added to the generated domain)"),
 "C18": ("exploration",
         "property-based testing (proptest) of generated submission/drain/clock/crash action sequences on rings driven directly (harness-owned clock) and inside a Sim, with an exactly-once multiset oracle, a visibility-time oracle and a differential twin filesystem driven through the synchronous shim in completion order",
         "No counterexample (other than the listed known finding) among generated action sequences over 1-2 rings and 1-3 files (reads, writes, fsyncs, cancels of pending/completed/foreign/bogus targets, unsupported flags, full-queue pushes, all submit variants, clock advances at exact latency boundaries, partial/split/late drains, interleaved shim writes, close/reopen with ops in flight, ring drop, crash) under none/fixed/ranged latency and page cache on/off: every accepted submission produced exactly one completion with its user_data, no completion was visible before its minimum latency, results, buffers and final contents equalled the synchronous API applied in completion order, cancelled reads left their buffer untouched, and after a crash no earlier submission completed or took effect; the same inside a Sim with AsyncFd::readable loops and Sim::crash/bounce.",
         "Handles are opened read+write in the main search (known finding F-C18-1 concerns ring ops on handles with a narrower access mode and is asserted by its replays); fault injection, torn writes and misaligned O_DIRECT are excluded because the twin cannot share the Fs RNG; entries of a dropped ring are exempt from exactly-once.",
         "DESIGN.md §6 C18 (plan) and §10.5 (what four rounds of independently seeded changes added to the generated domain)"),
 "C01": ("exploration",
         "property-based testing (proptest): every generated scenario is executed twice in one process and, for a deterministic third, in two freshly spawned OS processes, and the complete traces are compared (run-twice equality); a quarter of the fs/io_uring scenarios are additionally re-run with real wall-clock pauses injected by the harness (metamorphic relation: wall-clock time must not matter)",
         "No counterexample among generated scenarios over all builder and filesystem knobs, 1-5 hosts with TCP/UDP/tokio-select-spawn/filesystem/io_uring programs and crash/bounce/partition/hold controller scripts: the sequence of turmoil trace events (sends, deliveries, drops, receives with endpoints and payloads), step results and panics, Sim::elapsed and the program logs (virtual timestamps, values, error kinds, read_dir order, CQE order) were identical between two runs in one process, between that and two fresh processes, and with wall-clock pauses injected.",
         "Programs are pure functions of the scenario; fresh-process equality is between processes of this binary on this machine; a nondeterministic failure that does not reproduce on the final re-run of the shrunk case is still reported with the signature first seen.",
         "DESIGN.md §6 C01 (plan) and §10.5 (what four rounds of independently seeded changes added to the generated domain)"),
 "C10": ("exploration",
         "model-based property testing (proptest): generated operation histories applied in lock-step to the real turmoil-fs (std shim, tokio shim and io_uring front-ends on one tree, two independent hosts) and to an inode-tree reference model, comparing every result and full scans",
         "No counterexample (other than the listed known findings) among generated histories of up to 47 operations over 13 paths in nested directories (open with all 64 flag combinations, positional and cursor reads/writes, seek, set_len, rename, remove, create_dir(_all), remove_dir(_all), read_dir, metadata, syncs and clock advances at every position, three front-ends mixed, two hosts with identical names): every result (data, counts, positions, lengths, entry sets, Ok/Err and unambiguous error kinds) and every periodic full scan (existence, kind, length, content, read_dir as a set) equalled the reference model, scans before and after every sync and clock advance were identical, and the other host's tree never changed. The reference model itself was validated against the real Linux filesystem with the same interpreter.",
         "All fault probabilities 0; a handle is only used while its path still names the inode it was opened on; objects touched by a known finding (F-C10-1..13, path-keyed pending log) are tainted and excluded from comparison while that finding is listed as known, and each finding is asserted by its committed probe replays.",
         "DESIGN.md §6 C10 (plan) and §10.5 (what four rounds of independently seeded changes added to the generated domain)"),
 "C13": ("exploration",
         "model-based property testing (proptest) on a controller-style NetWire driver: generated action lists (listen, connect, cancel, accept, write, read, shutdown, drop, listener drop, wire rounds with per-packet fates) against a connection/backlog model, with the H2 table-count hook for reclamation and H3 to shrink the ephemeral range",
         "No counterexample (other than the listed known findings) among generated action lists on two dual-stack hosts with backlogs from 1, ephemeral ranges of 1-5 ports, delays, reordering and drops within the retransmit budget: connects succeeded only when a listener existed and were refused when none did, never exceeded the backlog, timed out only against a full backlog; accept handed out each established connection exactly once with mirrored addresses and intact byte prefixes; close/drop/cancel/listener-drop actions met peers in all eight handshake and close states; and after both sides had closed, at quiescence and at the end, the socket table, binding index and connection index held exactly the objects still owned by the script, every used port could be bound again and every used 4-tuple reconnected.",
         "Connect liveness is judged only on loss-free runs with bounded holds over fresh 4-tuples; residues attributed by the model to known findings F-C13-1..5 are tolerated and counted while those are listed as known, and each is asserted by its probe replay.",
         "DESIGN.md §6 C13 (plan) and §10.5 (what four rounds of independently seeded changes added to the generated domain)"),
 "C17": ("exploration",
         "model-based property testing (proptest): generated bind/connect/listen/close sequences on 2-3 multi-address dual-stack hosts stepped in lock-step with a socket-table model, followed by an exhaustive probe matrix (a tagged datagram and a TCP connect from every host to every address x port x protocol)",
         "No counterexample among generated sequences: every bind returned Ok / AddrInUse / AddrNotAvailable exactly as the socket-table model says (same address or wildcard conflict per family+protocol+port, locality), port 0 yielded a port unused at every local address and failed only when the (shrunk) range was exhausted, close freed bindings (table counts equal the model after every step), and every probe datagram and connect of the full matrix reached exactly the socket the model names — a connected UDP socket only from its peer, an established connection before a listener, unknown destinations nobody — and no other socket on any host.",
         "SO_REUSEADDR/SO_REUSEPORT are not reachable through the public API (set_option is unimplemented for them), so an exact-address and a wildcard socket of one (family, protocol, port) cannot coexist and the exact-before-wildcard clause is not observable; hostname addressing is not exercised.",
         "DESIGN.md §6 C17 (plan) and §10.5 (what four rounds of independently seeded changes added to the generated domain)"),
 "C19": ("exploration",
         "bounded-exhaustive enumeration of small rule chains (verdict x install point x guard drop position) plus property-based random chains and traffic, on a primitive scheduler (egress_all/evaluate/deliver) and inside fixture::ClientServer / fixture::lo, checked against a chain model over an execution-ordered log of rule invocations, sends and receipts",
         "Every chain of up to 3 (4 thorough) constant rules was enumerated over install points and guard-drop positions, and random chains of 0-6 table-driven (partly stateful) rules installed through Net::rule, EnterGuard::rule and turmoil_net::rule, ended by drop / forget / mem::forget / alias guards, with UDP and TCP traffic including loopback and own-address packets: each non-loopback packet was decided by exactly the first non-Pass rule in installation order, no rule was consulted after a verdict or after its guard was dropped, no installed rule was skipped, loopback packets were never shown to a rule; inside the fixtures Deliver(d) datagrams arrived within [T_e+d, T_e+d+1 tick], equal deadlines kept emission order, zero-delay and Pass packets arrived in their evaluation tick, and dropped packets never arrived.",
         "The timing half is asserted for UDP datagrams inside the fixtures (tokio's paused timer is 1 ms granular); own-address traffic is treated as loopback only when no rule saw it (the docs promise folding for loopback only).",
         "DESIGN.md §6 C19 (plan) and §10.5 (what four rounds of independently seeded changes added to the generated domain)"),
 "C07": ("fault_enumeration",
         "fault enumeration: a crash injected after EVERY prefix of every generated filesystem history (re-executed from scratch), plus crash-continue-crash cycles, driven directly (Fs::crash + IoUringHostState::crash) and inside a running Sim (Sim::crash + Sim::bounce, observed by the restarted software), checked against a two-level durability model",
         "For every generated history (std shim, tokio shim and io_uring mixed; create, open, writes, set_len, sync_all, sync_data, io_uring fsync, sync_dir, renames, removes, directories; sync_probability 0 or 0.3, block_size none/2/3; two hosts) a crash was injected after each prefix and the whole path universe observed: an entry existed exactly when a durable parent directory's durable entry map contained it, contents equalled the last data-synced contents (or, with background sync / torn writes, lay in the enumerated admissible set), unsynced creates, writes, truncations, renames and removals were rolled back, synced data was never lost and never-written bytes never appeared; the host that did not crash kept its current view; the same held across 2-3 crash/continue cycles and when the crash was Sim::crash + Sim::bounce.",
         "Only regular files and directories whose ancestors are all durable are asserted (dangling subtrees are unspecified by the crate's model); regions touched by C10 findings that are still known (F-C10-1, 2, 4, 10, 11) are tainted and counted; before the crash the full C10 lock-step oracle runs on every op.",
         "DESIGN.md §6 C07 (plan) and §10.5 (what four rounds of independently seeded changes added to the generated domain)"),
}

PENDING_REASON = "check not built yet in this round (planned, see DESIGN.md §6); not claimed until its check exists and has been shown silent on the unchanged tree"

def main():
    props = [json.loads(l) for l in open(os.path.join(ROOT, "properties.jsonl"))]
    checks, na = [], []
    for p in props:
        pid = p["id"]
        if pid in CLAIMED:
            level, tech, text, note, ref = CLAIMED[pid]
            checks.append({
                "property_id": pid,
                "quick_cmd": f"./check.sh {pid} quick",
                "thorough_cmd": f"./check.sh {pid} thorough",
                "evidence_file": f"/verif/evidence/{pid}.json",
                "replay_cmd_template": "./harness/target/release/tvh replay {path}",
                "engine": "tvh",
                "level_claimed": {"category": level, "text": text, "design_ref": ref},
                "level_note": note,
                "technique": tech,
            })
        else:
            na.append({"property_id": pid, "reason": NA.get(pid, PENDING_REASON)})
    hooks_commits = []
    hc = os.path.join(ROOT, "hooks_commits.txt")
    if os.path.exists(hc):
        hooks_commits = [l.split()[0] for l in open(hc) if l.strip() and not l.startswith("#")]
    m = {
        "version": 1,
        "setup_cmd": "cd /verif/harness && mkdir -p target && CARGO_NET_OFFLINE=true cargo build --release --offline",
        "hooks": {
            "guard": "--cfg turmoil_verif",
            "enable": "RUSTFLAGS via /verif/harness/.cargo/config.toml: [\"--cfg\",\"tokio_unstable\",\"--cfg\",\"turmoil_verif\"]; the harness crate has path dependencies on /repo/crates/*, so every check rebuilds /repo's working tree with the hooks on",
            "baseline_off_cmd": "cd /repo && cargo test --workspace --no-fail-fast --offline",
            "source_commits": hooks_commits,
            "add_only": True,
        },
        "engines": [{
            "name": "tvh",
            "path": "/verif/harness",
            "serves_properties": [c["property_id"] for c in checks],
            "kind_free_text": "Rust binary: proptest TestRunner on 16 fixed seeded workers + bounded-exhaustive enumerators + committed replay corpus, with four drivers (Sim stepping, direct Fs/io_uring, turmoil-net wire, manual polling) and per-property reference models; the thorough tier of 18 properties additionally runs a libFuzzer campaign (/verif/fuzz, structure-aware byte decoding into the same scenario types, same interpreter and oracle); writes evidence itself",
        }],
        "checks": checks,
        "notes": "All commands run ./check.sh <ID> <tier>: offline cargo build of /verif/harness (path deps on /repo) then tvh check. Exit 0 held / 1 VIOLATION / 2 inconclusive (build failure, watchdog). VERIF_SEED selects the PRNG streams; the thorough tier multiplies the random case counts by VERIF_THOROUGH_MULT (default 3) and VERIF_NO_FUZZ=1 skips the libFuzzer campaign. Known findings: /verif/known_findings.json (status known|fixed; a fixed entry suppresses nothing). Sensitivity material: /verif/seeded (160 breaking changes, all detected: tools/seed_recheck.py), /verif/benign (120 property-preserving changes, silent except three correct cross-property alarms: tools/benign_recheck.py).",
        "not_applicable": na,
    }
    json.dump(m, open(os.path.join(ROOT, "MANIFEST.json"), "w"), indent=1)
    print("claimed:", [c["property_id"] for c in checks])

NA = {}
if __name__ == "__main__":
    main()

#!/usr/bin/env python3
"""tools/benign_eval.py <worktree> <ID> <A|B|C> [ids...]
Takes a property-PRESERVING behavioural change written by an independent agent
(<worktree>/benign/<X>/{patch.diff,demo.rs,meta.json}), stores it under /verif/benign/<ID>-<X>/ and
runs the quick checks (default: all 20) against it in a scratch copy (tools/mut.py, MUT_DIR=/tmp/mutb).
Any VIOLATION here is a candidate false alarm and has to be judged by hand."""
import sys, os, re, json, subprocess, shutil
wt, pid, var = sys.argv[1:4]
ids = sys.argv[4:] or ['C%02d' % i for i in range(1, 21)]
src = os.path.join(wt, 'benign', var)
out = f'/verif/benign/{pid}-{var}'
os.makedirs(out, exist_ok=True)
for f in ('patch.diff', 'demo.rs', 'meta.json'):
    if os.path.exists(os.path.join(src, f)):
        shutil.copy(os.path.join(src, f), out)
meta = json.load(open(out + '/meta.json'))
env = dict(os.environ, MUT_DIR=os.environ.get('MUT_DIR', '/tmp/mutb'))
r = subprocess.run(['/verif/tools/mut.py', '--patch', out + '/patch.diff', '--'] + ids, capture_output=True, text=True, env=env)
alarms = {}
for i in ids:
    if f'[mutant] {i} rc=0' not in r.stdout:
        m = re.search(rf'\[mutant\] {i} rc=(\d+)', r.stdout)
        alarms[i] = int(m.group(1)) if m else 'not run'
sigs = sorted(set(re.findall(r'VIOLATION property=(C\d+)[^\n]*signature="([^"]+)"', r.stdout)))
meta['checks_run'] = ids
meta['alarms'] = alarms
meta['alarm_signatures'] = [list(s) for s in sigs]
json.dump(meta, open(out + '/meta.json', 'w'), indent=1)
open(out + '/check_output.txt', 'w').write(r.stdout[-20000:])
print(f'[{pid}-{var}] {meta.get("title","")[:100]}\n   alarms={alarms} {sigs[:4]}', flush=True)
